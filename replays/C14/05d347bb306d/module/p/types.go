package p

import (
	ext2 "subj/x/ext"
)

type MyInt int

type MyF float64

type MyI64 int64

type N0 [2]int

type K0 struct {
}

type K1 struct {
	f0 ext2.Key
	F1 uint16
	F2 float32
}

type S0 struct {
	*K1
}

type S1 struct {
}

type S2 struct {
}

type S3 struct {
}
