package ext

type Num int

type Key struct {
	K0 byte
	K1 float32
	k2 bool
}

type E0 struct {
	f0 **bool
	F1 *Key
}

type E1 struct {
	f0 uint8
	f1 *E1
	F2 [2][1]float32
	f3 float32
}
