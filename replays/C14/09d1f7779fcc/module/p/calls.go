package p

var Anchor = 0

func EqualT0(a [2]map[string]byte, b [2]map[string]byte) bool {
	return deriveEqualT0(a, b)
}

func ContainsT0(l [][2]map[string]byte, x [2]map[string]byte) bool {
	return deriveContainsT0(l, x)
}

func UniqueT0(l [][2]map[string]byte) [][2]map[string]byte {
	return deriveUniqueT0(l)
}

func UnionlT0(a [][2]map[string]byte, b [][2]map[string]byte) [][2]map[string]byte {
	return deriveUnionLT0(a, b)
}

func IntersectlT0(a [][2]map[string]byte, b [][2]map[string]byte) [][2]map[string]byte {
	return deriveIntersectLT0(a, b)
}

func FilterT0(pred func([2]map[string]byte) bool, l [][2]map[string]byte) [][2]map[string]byte {
	return deriveFilterT0(pred, l)
}

func TakewhileT0(pred func([2]map[string]byte) bool, l [][2]map[string]byte) [][2]map[string]byte {
	return deriveTakeWhileT0(pred, l)
}

func AllT0(pred func([2]map[string]byte) bool, l [][2]map[string]byte) bool {
	return deriveAllT0(pred, l)
}

func AnyT0(pred func([2]map[string]byte) bool, l [][2]map[string]byte) bool {
	return deriveAnyT0(pred, l)
}

func EqualT1(a map[string]map[string]byte, b map[string]map[string]byte) bool {
	return deriveEqualT1(a, b)
}

func ContainsT1(l []map[string]map[string]byte, x map[string]map[string]byte) bool {
	return deriveContainsT1(l, x)
}

func UniqueT1(l []map[string]map[string]byte) []map[string]map[string]byte {
	return deriveUniqueT1(l)
}

func UnionlT1(a []map[string]map[string]byte, b []map[string]map[string]byte) []map[string]map[string]byte {
	return deriveUnionLT1(a, b)
}

func IntersectlT1(a []map[string]map[string]byte, b []map[string]map[string]byte) []map[string]map[string]byte {
	return deriveIntersectLT1(a, b)
}

func FilterT1(pred func(map[string]map[string]byte) bool, l []map[string]map[string]byte) []map[string]map[string]byte {
	return deriveFilterT1(pred, l)
}

func TakewhileT1(pred func(map[string]map[string]byte) bool, l []map[string]map[string]byte) []map[string]map[string]byte {
	return deriveTakeWhileT1(pred, l)
}

func AllT1(pred func(map[string]map[string]byte) bool, l []map[string]map[string]byte) bool {
	return deriveAllT1(pred, l)
}

func AnyT1(pred func(map[string]map[string]byte) bool, l []map[string]map[string]byte) bool {
	return deriveAnyT1(pred, l)
}

func EqualT2(a map[K0]map[string]byte, b map[K0]map[string]byte) bool {
	return deriveEqualT2(a, b)
}

func ContainsT2(l []map[K0]map[string]byte, x map[K0]map[string]byte) bool {
	return deriveContainsT2(l, x)
}

func UniqueT2(l []map[K0]map[string]byte) []map[K0]map[string]byte {
	return deriveUniqueT2(l)
}

func UnionlT2(a []map[K0]map[string]byte, b []map[K0]map[string]byte) []map[K0]map[string]byte {
	return deriveUnionLT2(a, b)
}

func IntersectlT2(a []map[K0]map[string]byte, b []map[K0]map[string]byte) []map[K0]map[string]byte {
	return deriveIntersectLT2(a, b)
}

func FilterT2(pred func(map[K0]map[string]byte) bool, l []map[K0]map[string]byte) []map[K0]map[string]byte {
	return deriveFilterT2(pred, l)
}

func TakewhileT2(pred func(map[K0]map[string]byte) bool, l []map[K0]map[string]byte) []map[K0]map[string]byte {
	return deriveTakeWhileT2(pred, l)
}

func AllT2(pred func(map[K0]map[string]byte) bool, l []map[K0]map[string]byte) bool {
	return deriveAllT2(pred, l)
}

func AnyT2(pred func(map[K0]map[string]byte) bool, l []map[K0]map[string]byte) bool {
	return deriveAnyT2(pred, l)
}

func EqualT3(a *map[K0]byte, b *map[K0]byte) bool {
	return deriveEqualT3(a, b)
}

func ContainsT3(l []*map[K0]byte, x *map[K0]byte) bool {
	return deriveContainsT3(l, x)
}

func UniqueT3(l []*map[K0]byte) []*map[K0]byte {
	return deriveUniqueT3(l)
}

func UnionlT3(a []*map[K0]byte, b []*map[K0]byte) []*map[K0]byte {
	return deriveUnionLT3(a, b)
}

func IntersectlT3(a []*map[K0]byte, b []*map[K0]byte) []*map[K0]byte {
	return deriveIntersectLT3(a, b)
}

func FilterT3(pred func(*map[K0]byte) bool, l []*map[K0]byte) []*map[K0]byte {
	return deriveFilterT3(pred, l)
}

func TakewhileT3(pred func(*map[K0]byte) bool, l []*map[K0]byte) []*map[K0]byte {
	return deriveTakeWhileT3(pred, l)
}

func AllT3(pred func(*map[K0]byte) bool, l []*map[K0]byte) bool {
	return deriveAllT3(pred, l)
}

func AnyT3(pred func(*map[K0]byte) bool, l []*map[K0]byte) bool {
	return deriveAnyT3(pred, l)
}

func EqualT4(a []map[K0]byte, b []map[K0]byte) bool {
	return deriveEqualT4(a, b)
}

func ContainsT4(l [][]map[K0]byte, x []map[K0]byte) bool {
	return deriveContainsT4(l, x)
}

func UniqueT4(l [][]map[K0]byte) [][]map[K0]byte {
	return deriveUniqueT4(l)
}

func UnionlT4(a [][]map[K0]byte, b [][]map[K0]byte) [][]map[K0]byte {
	return deriveUnionLT4(a, b)
}

func IntersectlT4(a [][]map[K0]byte, b [][]map[K0]byte) [][]map[K0]byte {
	return deriveIntersectLT4(a, b)
}

func FilterT4(pred func([]map[K0]byte) bool, l [][]map[K0]byte) [][]map[K0]byte {
	return deriveFilterT4(pred, l)
}

func TakewhileT4(pred func([]map[K0]byte) bool, l [][]map[K0]byte) [][]map[K0]byte {
	return deriveTakeWhileT4(pred, l)
}

func AllT4(pred func([]map[K0]byte) bool, l [][]map[K0]byte) bool {
	return deriveAllT4(pred, l)
}

func AnyT4(pred func([]map[K0]byte) bool, l [][]map[K0]byte) bool {
	return deriveAnyT4(pred, l)
}

func EqualT5(a [2]map[K0]byte, b [2]map[K0]byte) bool {
	return deriveEqualT5(a, b)
}

func ContainsT5(l [][2]map[K0]byte, x [2]map[K0]byte) bool {
	return deriveContainsT5(l, x)
}

func UniqueT5(l [][2]map[K0]byte) [][2]map[K0]byte {
	return deriveUniqueT5(l)
}

func UnionlT5(a [][2]map[K0]byte, b [][2]map[K0]byte) [][2]map[K0]byte {
	return deriveUnionLT5(a, b)
}

func IntersectlT5(a [][2]map[K0]byte, b [][2]map[K0]byte) [][2]map[K0]byte {
	return deriveIntersectLT5(a, b)
}

func FilterT5(pred func([2]map[K0]byte) bool, l [][2]map[K0]byte) [][2]map[K0]byte {
	return deriveFilterT5(pred, l)
}

func TakewhileT5(pred func([2]map[K0]byte) bool, l [][2]map[K0]byte) [][2]map[K0]byte {
	return deriveTakeWhileT5(pred, l)
}

func AllT5(pred func([2]map[K0]byte) bool, l [][2]map[K0]byte) bool {
	return deriveAllT5(pred, l)
}

func AnyT5(pred func([2]map[K0]byte) bool, l [][2]map[K0]byte) bool {
	return deriveAnyT5(pred, l)
}

func EqualT6(a map[string]map[K0]byte, b map[string]map[K0]byte) bool {
	return deriveEqualT6(a, b)
}

func ContainsT6(l []map[string]map[K0]byte, x map[string]map[K0]byte) bool {
	return deriveContainsT6(l, x)
}

func UniqueT6(l []map[string]map[K0]byte) []map[string]map[K0]byte {
	return deriveUniqueT6(l)
}

func UnionlT6(a []map[string]map[K0]byte, b []map[string]map[K0]byte) []map[string]map[K0]byte {
	return deriveUnionLT6(a, b)
}

func IntersectlT6(a []map[string]map[K0]byte, b []map[string]map[K0]byte) []map[string]map[K0]byte {
	return deriveIntersectLT6(a, b)
}

func FilterT6(pred func(map[string]map[K0]byte) bool, l []map[string]map[K0]byte) []map[string]map[K0]byte {
	return deriveFilterT6(pred, l)
}

func TakewhileT6(pred func(map[string]map[K0]byte) bool, l []map[string]map[K0]byte) []map[string]map[K0]byte {
	return deriveTakeWhileT6(pred, l)
}

func AllT6(pred func(map[string]map[K0]byte) bool, l []map[string]map[K0]byte) bool {
	return deriveAllT6(pred, l)
}

func AnyT6(pred func(map[string]map[K0]byte) bool, l []map[string]map[K0]byte) bool {
	return deriveAnyT6(pred, l)
}

func EqualT7(a map[K0]map[K0]byte, b map[K0]map[K0]byte) bool {
	return deriveEqualT7(a, b)
}

func ContainsT7(l []map[K0]map[K0]byte, x map[K0]map[K0]byte) bool {
	return deriveContainsT7(l, x)
}

func UniqueT7(l []map[K0]map[K0]byte) []map[K0]map[K0]byte {
	return deriveUniqueT7(l)
}

func UnionlT7(a []map[K0]map[K0]byte, b []map[K0]map[K0]byte) []map[K0]map[K0]byte {
	return deriveUnionLT7(a, b)
}

func IntersectlT7(a []map[K0]map[K0]byte, b []map[K0]map[K0]byte) []map[K0]map[K0]byte {
	return deriveIntersectLT7(a, b)
}

func FilterT7(pred func(map[K0]map[K0]byte) bool, l []map[K0]map[K0]byte) []map[K0]map[K0]byte {
	return deriveFilterT7(pred, l)
}

func TakewhileT7(pred func(map[K0]map[K0]byte) bool, l []map[K0]map[K0]byte) []map[K0]map[K0]byte {
	return deriveTakeWhileT7(pred, l)
}

func AllT7(pred func(map[K0]map[K0]byte) bool, l []map[K0]map[K0]byte) bool {
	return deriveAllT7(pred, l)
}

func AnyT7(pred func(map[K0]map[K0]byte) bool, l []map[K0]map[K0]byte) bool {
	return deriveAnyT7(pred, l)
}

func EqualT8(a **MyInt, b **MyInt) bool {
	return deriveEqualT8(a, b)
}

func ContainsT8(l []**MyInt, x **MyInt) bool {
	return deriveContainsT8(l, x)
}

func UniqueT8(l []**MyInt) []**MyInt {
	return deriveUniqueT8(l)
}

func UnionlT8(a []**MyInt, b []**MyInt) []**MyInt {
	return deriveUnionLT8(a, b)
}

func IntersectlT8(a []**MyInt, b []**MyInt) []**MyInt {
	return deriveIntersectLT8(a, b)
}

func FilterT8(pred func(**MyInt) bool, l []**MyInt) []**MyInt {
	return deriveFilterT8(pred, l)
}

func TakewhileT8(pred func(**MyInt) bool, l []**MyInt) []**MyInt {
	return deriveTakeWhileT8(pred, l)
}

func AllT8(pred func(**MyInt) bool, l []**MyInt) bool {
	return deriveAllT8(pred, l)
}

func AnyT8(pred func(**MyInt) bool, l []**MyInt) bool {
	return deriveAnyT8(pred, l)
}

func EqualT9(a []*MyInt, b []*MyInt) bool {
	return deriveEqualT9(a, b)
}

func ContainsT9(l [][]*MyInt, x []*MyInt) bool {
	return deriveContainsT9(l, x)
}

func UniqueT9(l [][]*MyInt) [][]*MyInt {
	return deriveUniqueT9(l)
}

func UnionlT9(a [][]*MyInt, b [][]*MyInt) [][]*MyInt {
	return deriveUnionLT9(a, b)
}

func IntersectlT9(a [][]*MyInt, b [][]*MyInt) [][]*MyInt {
	return deriveIntersectLT9(a, b)
}

func FilterT9(pred func([]*MyInt) bool, l [][]*MyInt) [][]*MyInt {
	return deriveFilterT9(pred, l)
}

func TakewhileT9(pred func([]*MyInt) bool, l [][]*MyInt) [][]*MyInt {
	return deriveTakeWhileT9(pred, l)
}

func AllT9(pred func([]*MyInt) bool, l [][]*MyInt) bool {
	return deriveAllT9(pred, l)
}

func AnyT9(pred func([]*MyInt) bool, l [][]*MyInt) bool {
	return deriveAnyT9(pred, l)
}

func EqualT10(a [2]*MyInt, b [2]*MyInt) bool {
	return deriveEqualT10(a, b)
}

func ContainsT10(l [][2]*MyInt, x [2]*MyInt) bool {
	return deriveContainsT10(l, x)
}

func UniqueT10(l [][2]*MyInt) [][2]*MyInt {
	return deriveUniqueT10(l)
}

func UnionlT10(a [][2]*MyInt, b [][2]*MyInt) [][2]*MyInt {
	return deriveUnionLT10(a, b)
}

func IntersectlT10(a [][2]*MyInt, b [][2]*MyInt) [][2]*MyInt {
	return deriveIntersectLT10(a, b)
}

func FilterT10(pred func([2]*MyInt) bool, l [][2]*MyInt) [][2]*MyInt {
	return deriveFilterT10(pred, l)
}

func TakewhileT10(pred func([2]*MyInt) bool, l [][2]*MyInt) [][2]*MyInt {
	return deriveTakeWhileT10(pred, l)
}

func AllT10(pred func([2]*MyInt) bool, l [][2]*MyInt) bool {
	return deriveAllT10(pred, l)
}

func AnyT10(pred func([2]*MyInt) bool, l [][2]*MyInt) bool {
	return deriveAnyT10(pred, l)
}

func EqualT11(a map[string]*MyInt, b map[string]*MyInt) bool {
	return deriveEqualT11(a, b)
}

func ContainsT11(l []map[string]*MyInt, x map[string]*MyInt) bool {
	return deriveContainsT11(l, x)
}

func UniqueT11(l []map[string]*MyInt) []map[string]*MyInt {
	return deriveUniqueT11(l)
}

func UnionlT11(a []map[string]*MyInt, b []map[string]*MyInt) []map[string]*MyInt {
	return deriveUnionLT11(a, b)
}

func IntersectlT11(a []map[string]*MyInt, b []map[string]*MyInt) []map[string]*MyInt {
	return deriveIntersectLT11(a, b)
}

func FilterT11(pred func(map[string]*MyInt) bool, l []map[string]*MyInt) []map[string]*MyInt {
	return deriveFilterT11(pred, l)
}

func TakewhileT11(pred func(map[string]*MyInt) bool, l []map[string]*MyInt) []map[string]*MyInt {
	return deriveTakeWhileT11(pred, l)
}

func AllT11(pred func(map[string]*MyInt) bool, l []map[string]*MyInt) bool {
	return deriveAllT11(pred, l)
}

func AnyT11(pred func(map[string]*MyInt) bool, l []map[string]*MyInt) bool {
	return deriveAnyT11(pred, l)
}

func EqualT12(a map[K0]*MyInt, b map[K0]*MyInt) bool {
	return deriveEqualT12(a, b)
}

func ContainsT12(l []map[K0]*MyInt, x map[K0]*MyInt) bool {
	return deriveContainsT12(l, x)
}

func UniqueT12(l []map[K0]*MyInt) []map[K0]*MyInt {
	return deriveUniqueT12(l)
}

func UnionlT12(a []map[K0]*MyInt, b []map[K0]*MyInt) []map[K0]*MyInt {
	return deriveUnionLT12(a, b)
}

func IntersectlT12(a []map[K0]*MyInt, b []map[K0]*MyInt) []map[K0]*MyInt {
	return deriveIntersectLT12(a, b)
}

func FilterT12(pred func(map[K0]*MyInt) bool, l []map[K0]*MyInt) []map[K0]*MyInt {
	return deriveFilterT12(pred, l)
}

func TakewhileT12(pred func(map[K0]*MyInt) bool, l []map[K0]*MyInt) []map[K0]*MyInt {
	return deriveTakeWhileT12(pred, l)
}

func AllT12(pred func(map[K0]*MyInt) bool, l []map[K0]*MyInt) bool {
	return deriveAllT12(pred, l)
}

func AnyT12(pred func(map[K0]*MyInt) bool, l []map[K0]*MyInt) bool {
	return deriveAnyT12(pred, l)
}

func EqualT13(a *[]MyInt, b *[]MyInt) bool {
	return deriveEqualT13(a, b)
}

func ContainsT13(l []*[]MyInt, x *[]MyInt) bool {
	return deriveContainsT13(l, x)
}

func UniqueT13(l []*[]MyInt) []*[]MyInt {
	return deriveUniqueT13(l)
}

func UnionlT13(a []*[]MyInt, b []*[]MyInt) []*[]MyInt {
	return deriveUnionLT13(a, b)
}

func IntersectlT13(a []*[]MyInt, b []*[]MyInt) []*[]MyInt {
	return deriveIntersectLT13(a, b)
}

func FilterT13(pred func(*[]MyInt) bool, l []*[]MyInt) []*[]MyInt {
	return deriveFilterT13(pred, l)
}

func TakewhileT13(pred func(*[]MyInt) bool, l []*[]MyInt) []*[]MyInt {
	return deriveTakeWhileT13(pred, l)
}

func AllT13(pred func(*[]MyInt) bool, l []*[]MyInt) bool {
	return deriveAllT13(pred, l)
}

func AnyT13(pred func(*[]MyInt) bool, l []*[]MyInt) bool {
	return deriveAnyT13(pred, l)
}
