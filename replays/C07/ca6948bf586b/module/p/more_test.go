package p

func c3(m M) uint64 {
	return deriveHash3(deriveSort3(deriveKeys3(m)))
}

