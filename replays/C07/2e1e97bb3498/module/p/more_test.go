package p

func c4(m M) uint64 {
	return deriveHash4(deriveSort4(deriveKeys4(m)))
}

