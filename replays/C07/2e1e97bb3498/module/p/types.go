package p

type S2 struct {
	F0 int
	G5 string
}

type M map[int]*S2

