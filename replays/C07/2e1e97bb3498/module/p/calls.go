package p

func c0(a *S2) *S2 {
	return deriveClone0(a)
}

func c3(a *S2) string {
	return deriveGoString3(a)
}

