package p

func c0(m M) uint64 {
	return deriveHash0(deriveSort0(deriveKeys0(m)))
}

func c1(a *S) *S {
	return deriveClone1(a)
}

