package p

func c2(a, b *S) int {
	return deriveCompare2(a, b)
}

