package p

type S struct {
	F0 *S
	G6 int
}

type M map[int]*S

