package p

func c0(a, b *S) bool {
	return deriveEqual0(a, b)
}

func c1(m M) uint64 {
	return deriveHash1(deriveSort1(deriveKeys1(m)))
}

