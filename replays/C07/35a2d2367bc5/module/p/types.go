package p

type S struct {
	F1 string
	F2 []*S
	G5 int
}

type M map[string]*S

