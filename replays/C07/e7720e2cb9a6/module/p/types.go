package p

type S2 struct {
	F0 string
	G3 bool
}

type M map[string]*S2

