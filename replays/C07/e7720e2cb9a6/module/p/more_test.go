package p

func c0(a, b *S2) bool {
	return deriveEqual0(a, b)
}

