package p

type S struct {
	F0 []int
	G3 string
}

type M map[string]*S

