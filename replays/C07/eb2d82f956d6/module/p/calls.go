package p

func c0(l []int) []int {
	return deriveUnique0(deriveSort0(l))
}

func c1(m M) []string {
	return deriveSort1(deriveKeys1(m))
}

func c4(a *S) uint64 {
	return deriveHash4(a)
}

