package p

type S struct {
	F0 string
	F1 []int
	F2 string
	F3 bool
	G9 *int
}

type M map[string]*S

