package p

type S struct {
	F0 []byte
	F1 uint8
	G7 *int
}

type M map[bool]*S

