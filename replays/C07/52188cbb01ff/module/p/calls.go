package p

func c0(a, b *S) bool {
	return deriveEqual0(a, b)
}

func c2(a *S) uint64 {
	return deriveHash2(a)
}

func c3(m M) uint64 {
	return deriveHash3(deriveSort3(deriveKeys3(m)))
}

