package p

type S struct {
	F1 bool
}

type M map[string]*S

