package p

type S struct {
	F0 float64
	F1 []int
	G5 map[int]string
}

type M map[string]*S

